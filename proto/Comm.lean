-- scratch prototype of the communicate model (no deadline): step function, invariant, measure
abbrev Byte := UInt8

inductive Strm | out | err deriving DecidableEq, Repr

inductive CAct
  | readIn (k : Nat) | write (s : Strm) (d : List Byte) | closeIn | close (s : Strm) | sleep
  deriving Repr

structure World where
  cap : Nat
  capOut : Nat
  capErr : Nat
  inBuf : List Byte
  outBuf : List Byte
  errBuf : List Byte
  inRd : Bool
  outWr : Bool
  errWr : Bool
  script : List CAct
  gIn : List Byte
  gOut : List Byte
  gErr : List Byte
  deriving Repr

inductive Res | ok | epipe | timedOut deriving DecidableEq, Repr

inductive PC
  | top | pollp | ready (i o e : Bool) | done (r : Res)
  deriving DecidableEq, Repr

structure Par where
  stdin : Bool
  input : List Byte
  hasOut : Bool
  hasErr : Bool
  outRef : Bool
  errRef : Bool
  outvec : List Byte
  errvec : List Byte
  limit : Option Nat
  pc : PC
  deriving Repr

structure Sys where
  par : Par
  w : World
  deriving Repr

def clamp (n lo hi : Nat) : Nat := max lo (min n hi)

/-- one child move; `n` is the oracle's transfer size; `none` = blocked / finished -/
def childStep (p : Par) (w : World) (n : Nat) : Option World :=
  match w.script with
  | [] =>
    if w.inRd || w.outWr || w.errWr then some { w with inRd := false, outWr := false, errWr := false }
    else none
  | .sleep :: rest => some { w with script := rest }
  | .closeIn :: rest => some { w with script := rest, inRd := false }
  | .close .out :: rest => some { w with script := rest, outWr := false }
  | .close .err :: rest => some { w with script := rest, errWr := false }
  | .readIn k :: rest =>
    if !w.inRd || k = 0 then some { w with script := rest }
    else if w.inBuf = [] then
      if p.stdin then none else some { w with script := rest }   -- block / EOF
    else
      let m := clamp n 1 (min k w.inBuf.length)
      some { w with script := rest, inBuf := w.inBuf.drop m, gIn := w.gIn ++ w.inBuf.take m }
  | .write .out d :: rest =>
    if !w.outWr || d = [] || !p.hasOut then some { w with script := rest }
    else if w.capOut ≤ w.outBuf.length then none
    else
      let m := clamp n 1 (min d.length (w.capOut - w.outBuf.length))
      some { w with script := (if m = d.length then rest else .write .out (d.drop m) :: rest),
                    outBuf := w.outBuf ++ d.take m, gOut := w.gOut ++ d.take m }
  | .write .err d :: rest =>
    if !w.errWr || d = [] || !p.hasErr then some { w with script := rest }
    else if w.capErr ≤ w.errBuf.length then none
    else
      let m := clamp n 1 (min d.length (w.capErr - w.errBuf.length))
      some { w with script := (if m = d.length then rest else .write .err (d.drop m) :: rest),
                    errBuf := w.errBuf ++ d.take m, gErr := w.gErr ++ d.take m }

def total (p : Par) : Nat := p.outvec.length + p.errvec.length

def pollIn (p : Par) (w : World) : Bool := p.stdin && (decide (w.inBuf.length + 4096 ≤ w.cap) || !w.inRd)   -- POLLOUT (A1) or POLLERR
def pollOut (p : Par) (w : World) : Bool := p.outRef && (w.outBuf ≠ [] || !w.outWr)
def pollErr (p : Par) (w : World) : Bool := p.errRef && (w.errBuf ≠ [] || !w.errWr)

def readSize (p : Par) : Nat :=
  match p.limit with
  | none => 4096
  | some l => min 4096 (l - total p)

def nextPc (o e : Bool) : PC := if o || e then .ready false o e else .top
def limitHit (p : Par) : Bool := match p.limit with | some l => decide (l ≤ total p) | none => false

/-- one parent move; `n` is the oracle's transfer size -/
def parStep (p : Par) (w : World) (n : Nat) : Option (Par × World) :=
  match p.pc with
  | .done _ => none
  | .top =>
    if limitHit p then some ({ p with pc := .done .ok }, w)
    else if !p.stdin && !p.outRef && !p.errRef then some ({ p with pc := .done .ok }, w)
    else some ({ p with pc := .pollp }, w)
  | .pollp =>
    if p.stdin && !p.outRef && !p.errRef then some ({ p with pc := .ready true false false }, w)
    else if !p.stdin && p.outRef && !p.errRef then some ({ p with pc := .ready false true false }, w)
    else if !p.stdin && !p.outRef && p.errRef then some ({ p with pc := .ready false false true }, w)
    else if pollIn p w || pollOut p w || pollErr p w then
      some ({ p with pc := .ready (pollIn p w) (pollOut p w) (pollErr p w) }, w)
    else none
  | .ready true o e =>
    if !w.inRd then some ({ p with pc := .done .epipe }, w)
    else if p.input = [] then some ({ p with stdin := false, pc := nextPc o e }, w)
    else if w.cap < w.inBuf.length + min 4096 p.input.length then none
    else
      some ({ p with input := p.input.drop (clamp n 1 (min 4096 p.input.length)),
                     stdin := decide (p.input.drop (clamp n 1 (min 4096 p.input.length)) ≠ []),
                     pc := nextPc o e },
            { w with inBuf := w.inBuf ++ p.input.take (clamp n 1 (min 4096 p.input.length)) })
  | .ready false true e =>
    if limitHit p then some ({ p with pc := .done .ok }, w)
    else if w.outBuf = [] then
      if w.outWr then none else some ({ p with outRef := false, pc := nextPc false e }, w)
    else
      some ({ p with outvec := p.outvec ++ w.outBuf.take (clamp n 1 (min (readSize p) w.outBuf.length)),
                     pc := nextPc false e },
            { w with outBuf := w.outBuf.drop (clamp n 1 (min (readSize p) w.outBuf.length)) })
  | .ready false false true =>
    if limitHit p then some ({ p with pc := .done .ok }, w)
    else if w.errBuf = [] then
      if w.errWr then none else some ({ p with errRef := false, pc := .top }, w)
    else
      some ({ p with errvec := p.errvec ++ w.errBuf.take (clamp n 1 (min (readSize p) w.errBuf.length)),
                     pc := .top },
            { w with errBuf := w.errBuf.drop (clamp n 1 (min (readSize p) w.errBuf.length)) })
  | .ready false false false => some ({ p with pc := .top }, w)

inductive Who | parent | child deriving Repr
structure Choice where
  who : Who
  n : Nat

def step (s : Sys) (c : Choice) : Option Sys :=
  match c.who with
  | .parent => (parStep s.par s.w c.n).map fun (p, w) => ⟨p, w⟩
  | .child => (childStep s.par s.w c.n).map fun w => ⟨s.par, w⟩

/-- C02 invariant (single call, retOut = []): nothing lost, duplicated, reordered -/
def CInv (orig : List Byte) (s : Sys) : Prop :=
  s.w.gOut = s.par.outvec ++ s.w.outBuf ∧
  s.w.gErr = s.par.errvec ++ s.w.errBuf ∧
  orig = s.w.gIn ++ s.w.inBuf ++ s.par.input

theorem take_drop_app (l : List Byte) (m : Nat) : l.take m ++ l.drop m = l := List.take_append_drop m l

theorem child_inv (orig : List Byte) (s : Sys) (n : Nat) (w' : World)
    (h : CInv orig s) (hs : childStep s.par s.w n = some w') : CInv orig ⟨s.par, w'⟩ := by
  obtain ⟨h1, h2, h3⟩ := h
  unfold childStep at hs
  split at hs
  · split at hs <;> simp at hs; subst hs; exact ⟨h1, h2, h3⟩
  all_goals (try (simp at hs; subst hs; exact ⟨h1, h2, h3⟩))
  · -- readIn
    split at hs
    · simp at hs; subst hs; exact ⟨h1, h2, h3⟩
    · split at hs
      · split at hs <;> simp at hs; subst hs; exact ⟨h1, h2, h3⟩
      · simp at hs; subst hs
        refine ⟨h1, h2, ?_⟩
        simp only [h3, List.append_assoc, List.take_append_drop]
  · -- write out
    split at hs
    · simp at hs; subst hs; exact ⟨h1, h2, h3⟩
    · split at hs
      · simp at hs
      · simp at hs; subst hs
        refine ⟨?_, h2, h3⟩
        simp [h1, List.append_assoc]
  · split at hs
    · simp at hs; subst hs; exact ⟨h1, h2, h3⟩
    · split at hs
      · simp at hs
      · simp at hs; subst hs
        refine ⟨h1, ?_, h3⟩
        simp [h2, List.append_assoc]

theorem par_inv (orig : List Byte) (s : Sys) (n : Nat) (p' : Par) (w' : World)
    (h : CInv orig s) (hs : parStep s.par s.w n = some (p', w')) : CInv orig ⟨p', w'⟩ := by
  obtain ⟨h1, h2, h3⟩ := h
  unfold parStep at hs
  repeat' (first | split at hs | (dsimp only at hs; split at hs))
  all_goals (try (simp at hs))
  all_goals (first | (obtain ⟨rfl, rfl⟩ := hs) | (obtain ⟨_, rfl, rfl⟩ := hs))
  all_goals (refine ⟨?_, ?_, ?_⟩ <;> simp only [h1, h2, h3, List.append_assoc, List.take_append_drop])


def actCost : CAct → Nat
  | .write _ d => 1 + 2 * d.length
  | _ => 1
def scriptCost : List CAct → Nat
  | [] => 0
  | a :: l => actCost a + scriptCost l
def b2n (b : Bool) : Nat := if b then 1 else 0
def worldPart (w : World) : Nat :=
  2 * w.inBuf.length + w.outBuf.length + w.errBuf.length
  + scriptCost w.script + b2n w.inRd + b2n w.outWr + b2n w.errWr
def parPart (p : Par) : Nat :=
  3 * p.input.length + b2n p.stdin + b2n p.outRef + b2n p.errRef
  + (match p.pc with | .done _ => 0 | _ => 1)
def rank : PC → Nat
  | .top => 5 | .pollp => 4 | .ready i o e => b2n i + b2n o + b2n e | .done _ => 0
def mu (s : Sys) : Nat := 6 * (parPart s.par + worldPart s.w) + rank s.par.pc

theorem len_pos_of_ne_nil {α} {l : List α} (h : ¬ l = []) : 1 ≤ l.length := by
  cases l with
  | nil => exact absurd rfl h
  | cons a t => simp

theorem child_world (p : Par) (w : World) (n : Nat) (w' : World)
    (hs : childStep p w n = some w') : worldPart w' < worldPart w := by
  unfold childStep at hs
  repeat' (first | split at hs | (dsimp only at hs; split at hs))
  all_goals (try (simp at hs))
  all_goals (try subst hs)
  all_goals (simp_all [worldPart, scriptCost, actCost, b2n, clamp])
  all_goals (first
    | omega
    | (rename_i h1 h2 h3; have := len_pos_of_ne_nil h1.1.2; omega)
    | (rename_i h; rcases h with (h | h) | h <;> simp [h] <;> omega))

theorem child_mu (s : Sys) (n : Nat) (w' : World)
    (hs : childStep s.par s.w n = some w') : mu ⟨s.par, w'⟩ < mu s := by
  have := child_world s.par s.w n w' hs
  simp only [mu]; omega

theorem nextPc_rank (o e : Bool) : rank (nextPc o e) ≤ 5 := by
  cases o <;> cases e <;> simp [nextPc, rank, b2n]

/-- well-formedness of the parent's flags (reachable-state invariant) -/
def PWF (p : Par) : Prop :=
  match p.pc with
  | .ready i o e => (i = true → p.stdin = true) ∧ (o = true → p.outRef = true) ∧ (e = true → p.errRef = true) ∧ (i || o || e) = true
  | _ => True

@[simp] theorem b2n_true : b2n true = 1 := rfl
@[simp] theorem b2n_false : b2n false = 0 := rfl
theorem b2n_le (b : Bool) : b2n b ≤ 1 := by cases b <;> simp

theorem par_mu (s : Sys) (n : Nat) (p' : Par) (w' : World) (hwf : PWF s.par)
    (hs : parStep s.par s.w n = some (p', w')) : mu ⟨p', w'⟩ < mu s := by
  rcases s with ⟨⟨stdin, input, hasOut, hasErr, outRef, errRef, outvec, errvec, limit, pc⟩, w⟩
  cases pc with
  | done r => simp [parStep] at hs
  | top =>
    simp only [parStep] at hs
    repeat' (first | split at hs | (dsimp only at hs; split at hs))
    all_goals (simp at hs; obtain ⟨rfl, rfl⟩ := hs; simp [mu, parPart, rank]; try omega)
  | pollp =>
    simp only [parStep] at hs
    repeat' (first | split at hs | (dsimp only at hs; split at hs))
    all_goals (try (simp at hs))
    all_goals (first | (obtain ⟨rfl, rfl⟩ := hs) | (obtain ⟨_, rfl, rfl⟩ := hs))
    all_goals (simp [mu, parPart, rank])
    all_goals (rename_i hh; revert hh; generalize pollIn _ w = a; generalize pollOut _ w = b; generalize pollErr _ w = c; intro hh; have := b2n_le a; have := b2n_le b; have := b2n_le c; omega)
  | ready i o e =>
    cases i <;> cases o <;> cases e <;> simp only [parStep, nextPc] at hs
    all_goals (repeat' (first | split at hs | (dsimp only at hs; split at hs)))
    all_goals (try (simp at hs))
    all_goals (first | (obtain ⟨rfl, rfl⟩ := hs) | (obtain ⟨_, rfl, rfl⟩ := hs))
    all_goals (try (have hp1 : 1 ≤ input.length := len_pos_of_ne_nil (by assumption)))
    all_goals (try (have hp2 : 1 ≤ w.outBuf.length := len_pos_of_ne_nil (by assumption)))
    all_goals (try (have hp3 : 1 ≤ w.errBuf.length := len_pos_of_ne_nil (by assumption)))
    all_goals (simp [mu, parPart, worldPart, rank, clamp, PWF] at *)
    all_goals (try (generalize hgen : b2n (decide _) = bb at *; have hb : bb ≤ 1 := hgen ▸ b2n_le _))
    all_goals (try (have e1 : b2n stdin = 1 := by simp_all))
    all_goals (try (have e2 : b2n outRef = 1 := by simp_all))
    all_goals (try (have e3 : b2n errRef = 1 := by simp_all))
    all_goals (first | omega | skip)
    all_goals sorry


/-- reachable-state invariant needed for progress -/
structure WF (s : Sys) : Prop where
  cap : 4096 ≤ s.w.cap
  capO : 1 ≤ s.w.capOut
  capE : 1 ≤ s.w.capErr
  pwf : PWF s.par
  outDead : s.par.outRef = false → s.par.hasOut = true → s.w.outWr = false
  errDead : s.par.errRef = false → s.par.hasErr = true → s.w.errWr = false
  outHas : s.par.outRef = true → s.par.hasOut = true
  errHas : s.par.errRef = true → s.par.hasErr = true
  someOpen : s.par.pc = .pollp → (s.par.stdin = true ∨ s.par.outRef = true ∨ s.par.errRef = true)
  wrOk : ∀ o e, s.par.pc = .ready true o e →
    (s.par.outRef = false ∧ s.par.errRef = false) ∨ s.w.inBuf.length + 4096 ≤ s.w.cap ∨ s.w.inRd = false
  rdOutOk : ∀ i e, s.par.pc = .ready i true e →
    (s.par.stdin = false ∧ s.par.errRef = false) ∨ s.w.outBuf ≠ [] ∨ s.w.outWr = false
  rdErrOk : ∀ i o, s.par.pc = .ready i o true →
    (s.par.stdin = false ∧ s.par.outRef = false) ∨ s.w.errBuf ≠ [] ∨ s.w.errWr = false

def parEnabled (s : Sys) : Prop := ∃ n r, parStep s.par s.w n = some r
def childEnabled (s : Sys) : Prop := ∃ n w', childStep s.par s.w n = some w'

theorem child_en (p : Par) (w : World)
    (hexit : w.script = [] → (w.inRd || w.outWr || w.errWr) = true)
    (hread : w.inRd = true → w.inBuf = [] → p.stdin = false)
    (hout : w.outWr = true → p.hasOut = true → w.outBuf.length < w.capOut)
    (herr : w.errWr = true → p.hasErr = true → w.errBuf.length < w.capErr) :
    ∃ n w', childStep p w n = some w' := by
  refine ⟨0, ?_⟩
  unfold childStep
  split
  · simp [hexit ‹_›]
  · exact ⟨_, rfl⟩
  · exact ⟨_, rfl⟩
  · exact ⟨_, rfl⟩
  · exact ⟨_, rfl⟩
  · -- readIn
    split
    · exact ⟨_, rfl⟩
    · split
      · rename_i h1 h2
        have : w.inRd = true := by simp at h1; exact h1.1
        simp [hread this h2]
      · exact ⟨_, rfl⟩
  · split
    · exact ⟨_, rfl⟩
    · rename_i h1
      simp at h1
      have := hout h1.1.1 h1.2
      split
      · omega
      · exact ⟨_, rfl⟩
  · split
    · exact ⟨_, rfl⟩
    · rename_i h1
      simp at h1
      have := herr h1.1.1 h1.2
      split
      · omega
      · exact ⟨_, rfl⟩

theorem progress (s : Sys) (h : WF s) (hnd : ∀ r, s.par.pc ≠ .done r) : parEnabled s ∨ childEnabled s := by
  obtain ⟨hcap, hcapO, hcapE, hpwf, hod, hed, hoh, heh, hso, hwr, hro, hre⟩ := h
  rcases s with ⟨⟨stdin, input, hasOut, hasErr, outRef, errRef, outvec, errvec, limit, pc⟩, w⟩
  simp only at *
  cases pc with
  | done r => exact absurd rfl (hnd r)
  | top =>
    left; refine ⟨0, ?_⟩; simp only [parStep]
    split
    · exact ⟨_, rfl⟩
    · split <;> exact ⟨_, rfl⟩
  | pollp =>
    by_cases hsc : ∃ r, parStep ⟨stdin, input, hasOut, hasErr, outRef, errRef, outvec, errvec, limit, .pollp⟩ w 0 = some r
    · left; exact ⟨0, hsc⟩
    · right
      -- the parent is blocked in poll: no shortcut applies and no stream is ready
      have hblk : parStep ⟨stdin, input, hasOut, hasErr, outRef, errRef, outvec, errvec, limit, .pollp⟩ w 0 = none := by
        cases hq : parStep ⟨stdin, input, hasOut, hasErr, outRef, errRef, outvec, errvec, limit, .pollp⟩ w 0 with
        | none => rfl
        | some r => exact absurd ⟨r, hq⟩ hsc
      simp only [parStep] at hblk
      repeat' (first | split at hblk | (dsimp only at hblk; split at hblk))
      all_goals (try (simp at hblk))
      rename_i h1 h2 h3 h4
      simp [pollIn, pollOut, pollErr] at h4
      obtain ⟨⟨hi, ho⟩, he⟩ := h4
      have hso' := hso rfl
      apply child_en
      · intro hs
        show (w.inRd || w.outWr || w.errWr) = true
        cases hA : w.inRd <;> cases hB : w.outWr <;> cases hC : w.errWr <;> simp
        rcases hso' with h | h | h
        · have := hi h; simp [hA] at this
        · have := ho h; simp [hB] at this
        · have := he h; simp [hC] at this
      · intro hr hb
        dsimp only at hr hb
        show stdin = false
        cases hst : stdin with
        | false => rfl
        | true =>
          have := hi hst
          simp [hb] at this
          omega
      · intro ho1 ho2
        dsimp only at ho1 ho2
        show w.outBuf.length < w.capOut
        by_cases hfull : w.outBuf.length < w.capOut
        · exact hfull
        · have hne : w.outBuf ≠ [] := by intro h0; simp [h0] at hfull; omega
          cases hor : outRef with
          | true => have := ho hor; simp [hne] at this
          | false => have := hod hor ho2; simp [ho1] at this
      · intro he1 he2
        dsimp only at he1 he2
        show w.errBuf.length < w.capErr
        by_cases hfull : w.errBuf.length < w.capErr
        · exact hfull
        · have hne : w.errBuf ≠ [] := by intro h0; simp [h0] at hfull; omega
          cases her : errRef with
          | true => have := he her; simp [hne] at this
          | false => have := hed her he2; simp [he1] at this
  | ready i o e => sorry
